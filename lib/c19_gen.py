"""C19: scenario generator (structured, mostly valid: it tracks an abstract state of both ends so that
host answers respect the bounds), malformed-host mutator, and the property's own predicates evaluated
on an outcome line of the REAL driver (harness/crates/rtmock/src/bin/streams.rs).

Scenario grammar (one line):  <s|m><c|l|h> act act ...
  writer: w<n> wb wa<n> wo pw[=a,..] ew=a vw cw[=a] xw[=a] bv bd dw
  reader: r<cap> nx col ad pr[=a,..] er=a vr cr[=a] xr[=a] rv dr
  answers: B | C<k> | D<k> | X<k> | #<raw code>
"""
BLOCKED = 0xFFFFFFFF


def code_of(a):
    if a == "B":
        return BLOCKED
    if a[0] == "#":
        return int(a[1:])
    return int(a[1:]) * 16 + {"C": 0, "D": 1, "X": 2}[a[0]]


class W:
    def __init__(s):
        s.alive = True; s.done = False; s.fut = None  # None | 'op' | 'all' | 'one'
        s.init = False        # write_all/one not yet polled
        s.phase = None        # 'start' | 'blocked' | 'ev' | 'deliv'
        s.code = None         # event code (kind, k)
        s.rem = 0             # items not yet moved of the live buffer
        s.buf = False         # held AbiBuffer


class R:
    def __init__(s):
        s.alive = True; s.done = False; s.fut = None  # None|'op'|'next'|'coll'
        s.init = False; s.phase = None; s.code = None
        s.cap = 0; s.vec = None  # held vec length or None
        s.oplen = 0
        s.ad = None  # None | 'idle' | 'reading' | 'complete' | 'gone'
        s.vcap = 0; s.vlen = 0  # collect's vector


class Gen:
    def __init__(self, rng, kind):
        self.rng = rng; self.kind = kind
        self.w = W(); self.r = R(); self.pipe = 0
        self.toks = []
        self.stats = {}

    def stat(self, k):
        self.stats[k] = self.stats.get(k, 0) + 1

    # ---- host answers -------------------------------------------------------------------------
    def ans_rw(self, limit, allow_block=True):
        """answer to a start: (text, kind, k)"""
        rng = self.rng
        c = rng.weighted([("B", 4 if allow_block else 0), ("C", 6), ("D", 2)])
        if c == "B":
            return "B", "B", 0
        k = rng.range(0, limit) if rng.chance(3, 4) else limit
        if c == "C" and limit > 0 and k == 0 and rng.chance(3, 4):
            k = rng.range(1, limit)
        return "%s%d" % (c, k), c, k

    def ans_cancel(self, limit):
        c = self.rng.weighted([("X", 6), ("C", 2), ("D", 1)])
        k = 0 if self.rng.chance(1, 2) else self.rng.range(0, limit)
        return "%s%d" % (c, k), c, k

    # ---- writer -------------------------------------------------------------------------------
    def w_resolve(self, c, k):
        """a write resolved with code (c,k) (k already moved); returns 'dropped'|'cancelled'|'complete'"""
        w = self.w
        if c == "D" and k == 0:
            return "dropped"
        if c == "X" and k == 0:
            return "cancelled"
        if c == "D":
            w.done = True
        return "complete"

    def w_start(self, answers, allow_block=True):
        """start a write on the live buffer; returns status or None if blocked"""
        w = self.w
        if w.done:
            return "dropped"
        t, c, k = self.ans_rw(w.rem, allow_block)
        answers.append(t)
        if c == "B":
            w.phase = "blocked"
            return None
        w.rem -= k; self.pipe += k
        return self.w_resolve(c, k)

    def w_all_loop(self, status, answers, first):
        w = self.w
        while True:
            if status == "cancelled" and not first:
                status = "complete"
            if status == "complete" and w.rem > 0:
                first = False
                status = self.w_start(answers)
                if status is None:
                    return
                continue
            break
        w.fut = None; w.phase = None; w.rem = 0

    def w_poll(self):
        w = self.w; answers = []
        if w.fut == "op":
            if w.phase == "start":
                st = self.w_start(answers)
                if st is not None:
                    w.fut = None; w.phase = None; w.buf = True
            elif w.phase == "deliv":
                self.w_resolve(*w.code)
                w.fut = None; w.phase = None; w.buf = True
        else:
            if w.init:
                w.init = False
                st = self.w_start(answers)
                if st is not None:
                    self.w_all_loop(st, answers, True)
            elif w.phase == "deliv":
                st = self.w_resolve(*w.code)
                self.w_all_loop(st, answers, False)
        if self.rng.chance(1, 10):
            answers.append(self.rng.choice(["B", "C0", "C1", "D0"]))  # unused extras are ignored
        self.toks.append("pw" + ("=" + ",".join(answers) if answers else ""))

    def w_cancel(self, tok):
        """cw / xw on a live op-carrying future"""
        w = self.w; a = ""
        if w.phase == "blocked":
            t, c, k = self.ans_cancel(w.rem)
            if self.rng.chance(3, 4):
                a = "=" + t
            else:
                c, k = "X", 0
            w.rem -= k; self.pipe += k
            self.w_resolve(c, k)
        elif w.phase in ("ev", "deliv"):
            self.w_resolve(*w.code)
        self.toks.append(tok + a)
        w.fut = None; w.phase = None; w.init = False
        if tok == "cw":
            w.buf = True
        else:
            w.rem = 0

    def writer_action(self):
        w = self.w; rng = self.rng
        opts = []
        idle = w.fut is None and not w.buf
        if w.alive and idle:
            opts += [("w", 6), ("wa", 4), ("wo", 2)]
        if w.alive and w.fut is None and w.buf:
            opts += [("wb", 5)]
        if w.buf:
            opts += [("bv", 2), ("bd", 1)]
        if w.fut:
            if w.init or w.phase in ("start", "deliv"):
                opts += [("pw", 10)]
            else:
                opts += [("pw", 1)]
            if w.phase == "blocked":
                opts += [("ew", 8)]
            if w.phase == "ev":
                opts += [("vw", 8)]
            if w.fut == "op":
                opts += [("cw", 3)]
            opts += [("xw", 2)]
        if w.alive and w.fut is None:
            opts += [("dw", 1)]
        if not opts:
            return False
        a = rng.weighted(opts)
        self.stat(a)
        if a == "w":
            n = rng.weighted([(0, 1), (1, 3), (2, 3), (3, 3), (4, 2), (6, 1)])
            w.fut = "op"; w.phase = "start"; w.rem = n; self.toks.append("w%d" % n)
        elif a == "wa":
            n = rng.weighted([(0, 1), (1, 2), (2, 3), (3, 3), (5, 2)])
            w.fut = "all"; w.init = True; w.rem = n; self.toks.append("wa%d" % n)
        elif a == "wo":
            w.fut = "one"; w.init = True; w.rem = 1; self.toks.append("wo")
        elif a == "wb":
            w.buf = False; w.fut = "op"; w.phase = "start"; self.toks.append("wb")
        elif a in ("bv", "bd"):
            w.buf = False; w.rem = 0; self.toks.append(a)
        elif a == "pw":
            self.w_poll()
        elif a == "ew":
            c = rng.weighted([("C", 5), ("D", 2)])
            k = rng.range(0, w.rem)
            if c == "C" and k == 0 and w.rem > 0 and rng.chance(3, 4):
                k = rng.range(1, w.rem)
            w.rem -= k; self.pipe += k; w.code = (c, k); w.phase = "ev"
            self.toks.append("ew=%s%d" % (c, k))
        elif a == "vw":
            w.phase = "deliv"; self.toks.append("vw")
        elif a == "cw":
            self.w_cancel("cw")
        elif a == "xw":
            if w.init:
                w.fut = None; w.init = False; w.rem = 0; self.toks.append("xw")
            else:
                self.w_cancel("xw")
        elif a == "dw":
            w.alive = False; self.toks.append("dw")
        return True

    # ---- reader -------------------------------------------------------------------------------
    def r_resolve(self, c, k):
        r = self.r
        if c == "D" and k == 0:
            return "dropped"
        if c == "X" and k == 0:
            return "cancelled"
        if c == "D":
            r.done = True
        return "complete"

    def r_start(self, cap, answers):
        r = self.r
        if r.done:
            return "dropped", 0
        t, c, k = self.ans_rw(min(cap, self.pipe))
        answers.append(t)
        if c == "B":
            r.phase = "blocked"; r.cap = cap
            return None, 0
        self.pipe -= k
        return self.r_resolve(c, k), k

    def vec_reserve(self):
        r = self.r
        if r.vlen == r.vcap:
            r.vcap = max(8 if self.kind == "c" else 4, r.vcap * 2, r.vlen + 1)

    def r_coll_loop(self, status, answers):
        r = self.r
        while status == "complete":
            self.vec_reserve()
            status, k = self.r_start(r.vcap - r.vlen, answers)
            if status is None:
                return
            r.vlen += k
        # dropped: collect returns, reader gone
        r.fut = None; r.phase = None; r.alive = False

    def r_finish_next(self):
        r = self.r
        if r.fut == "next":
            r.fut = None; r.phase = None
        else:  # adapter
            r.phase = None
            got = r.oplen > 0
            r.ad = "idle" if got else "complete"
            if not got:
                r.alive = False

    def r_poll(self):
        r = self.r; answers = []
        if r.fut == "op":
            if r.phase == "start":
                st, k = self.r_start(r.cap, answers)
                if st is not None:
                    r.fut = None; r.phase = None; r.vec = r.oplen + k
            elif r.phase == "deliv":
                self.r_resolve(*r.code)
                r.fut = None; r.phase = None; r.vec = r.oplen + r.code[1]
        elif r.fut == "next" or (r.fut is None and r.ad in ("idle", "reading")):
            if r.init or r.ad == "idle":
                r.init = False
                if r.fut is None:
                    r.ad = "reading"
                r.oplen = 0
                st, k = self.r_start(1, answers)
                if st is not None:
                    r.oplen = k
                    self.r_finish_next()
            elif r.phase == "deliv":
                self.r_resolve(*r.code)
                r.oplen = r.code[1]
                self.r_finish_next()
        elif r.fut == "coll":
            if r.init:
                r.init = False; r.vcap = 0; r.vlen = 0
                self.r_coll_loop("complete", answers)
            elif r.phase == "deliv":
                st = self.r_resolve(*r.code)
                r.vlen += r.code[1]
                self.r_coll_loop(st, answers)
        self.toks.append("pr" + ("=" + ",".join(answers) if answers else ""))

    def r_cancel(self, tok):
        r = self.r; a = ""
        if r.phase == "blocked":
            t, c, k = self.ans_cancel(min(r.cap, self.pipe))
            if self.rng.chance(3, 4):
                a = "=" + t
            else:
                c, k = "X", 0
            self.pipe -= k
            self.r_resolve(c, k)
            got = k
        elif r.phase in ("ev", "deliv"):
            self.r_resolve(*r.code); got = r.code[1]
        else:
            got = 0
        self.toks.append(tok + a)
        if tok == "cr":
            r.vec = r.oplen + got
        if r.fut == "coll":
            r.alive = False
        if r.fut is None and r.ad:
            r.ad = "gone"; r.alive = False
        r.fut = None; r.phase = None; r.init = False

    def reader_action(self):
        r = self.r; rng = self.rng
        opts = []
        plain = r.alive and r.ad is None and r.fut is None
        if plain:
            opts += [("r", 8), ("nx", 3), ("col", 2), ("ad", 2), ("dr", 1)]
        if r.vec is not None and r.fut != "op":
            opts += [("rv", 2)]
        busy_op = r.fut is not None or r.ad in ("reading",)
        if r.fut is not None or r.ad in ("idle", "reading", "complete"):
            hot = r.init or r.phase in ("start", "deliv") or (r.fut is None and r.ad == "idle")
            opts += [("pr", 10 if hot else 1)]
            if r.phase == "blocked":
                opts += [("er", 8)]
            if r.phase == "ev":
                opts += [("vr", 8)]
            if r.fut == "op":
                opts += [("cr", 3)]
            opts += [("xr", 2 if busy_op else 1)]
        if not opts:
            return False
        a = rng.weighted(opts)
        self.stat(a)
        if a == "r":
            cap = rng.weighted([(0, 1), (1, 3), (2, 3), (3, 2), (5, 2)])
            r.oplen = r.vec or 0; r.vec = None
            r.fut = "op"; r.phase = "start"; r.cap = cap; self.toks.append("r%d" % cap)
        elif a == "nx":
            r.fut = "next"; r.init = True; self.toks.append("nx")
        elif a == "col":
            r.fut = "coll"; r.init = True; self.toks.append("col")
        elif a == "ad":
            r.ad = "idle"; self.toks.append("ad")
        elif a == "dr":
            r.alive = False; self.toks.append("dr")
        elif a == "rv":
            r.vec = None; self.toks.append("rv")
        elif a == "pr":
            if r.fut is None and r.ad == "complete":
                self.toks.append("pr")
            else:
                self.r_poll()
        elif a == "er":
            lim = min(r.cap, self.pipe)
            c = rng.weighted([("C", 5), ("D", 2)])
            k = rng.range(0, lim)
            if c == "C" and k == 0 and lim > 0 and rng.chance(3, 4):
                k = rng.range(1, lim)
            self.pipe -= k; r.code = (c, k); r.phase = "ev"
            self.toks.append("er=%s%d" % (c, k))
        elif a == "vr":
            r.phase = "deliv"; self.toks.append("vr")
        elif a == "cr":
            self.r_cancel("cr")
        elif a == "xr":
            if r.fut in ("next", "coll") and r.init:
                if r.fut == "coll":
                    r.alive = False
                r.fut = None; r.init = False; self.toks.append("xr")
            elif r.fut is None and r.ad in ("idle", "complete"):
                r.ad = "gone"; r.alive = False; self.toks.append("xr")
            else:
                self.r_cancel("xr")
        return True


def gen_case(rng, kind=None, maxlen=None):
    kind = kind or rng.choice(["c", "l", "h"])
    g = Gen(rng, kind)
    n = maxlen or rng.range(3, 28)
    for _ in range(n):
        side = rng.weighted([("w", 5), ("r", 5)])
        ok = g.writer_action() if side == "w" else g.reader_action()
        if not ok:
            ok = g.reader_action() if side == "w" else g.writer_action()
        if not ok:
            break
    return "s" + kind + " " + " ".join(g.toks), g.stats


def gen_malformed(rng):
    """A valid scenario with one host answer replaced by something no component-model host says."""
    for _ in range(50):
        case, _ = gen_case(rng)
        toks = case.split()
        idx = [i for i, t in enumerate(toks) if "=" in t]
        if not idx:
            continue
        i = rng.choice(idx)
        head, ans = toks[i].split("=", 1)
        al = ans.split(",")
        j = rng.below(len(al))
        what = rng.weighted([("nibble", 3), ("big", 4), ("cancelcode", 2)])
        if what == "nibble":
            al[j] = "#%d" % (rng.range(3, 15) + 16 * rng.range(0, 3))
        elif what == "big":
            al[j] = "%s%d" % (rng.choice(["C", "D", "X"] if head in ("cw", "cr", "xw", "xr") else ["C", "D"]), rng.range(7, 40))
        else:
            al[j] = "X%d" % rng.range(0, 2)
        toks[i] = head + "=" + ",".join(al)
        toks[0] = "m" + toks[0][1]
        return " ".join(toks), what
    return "mc w2 pw=#35", "nibble"


# --------------------------------------------------------------------------------------------------
# The property's own statement, evaluated on an outcome line of the REAL code
# --------------------------------------------------------------------------------------------------
def _ids(s):
    return [int(x) for x in s.split(",") if x != ""]


def decode(code):
    if code == BLOCKED:
        return ("B", 0)
    k = code >> 4
    n = code & 15
    return ({0: "C", 1: "D", 2: "X"}.get(n, "?"), k)


def res_of(code):
    c, k = decode(code)
    if c == "D" and k == 0:
        return "D", 0
    if c == "X" and k == 0:
        return "X", 0
    return "C%d" % k, k


def holds(case, out):
    """C19 on one real outcome.  Returns None or a description of the violation (strict scenarios only)."""
    try:
        return _holds(case, out)
    except (ValueError, IndexError, KeyError) as e:
        return "outcome line cannot be interpreted (corrupted values?): %s" % e


def _holds(case, out):
    acts = case.split()
    kind = acts[0][1]
    acts = acts[1:]
    groups = [g.split() for g in out.split(" | ")]
    fin = groups.pop()
    if fin[0] != "END":
        return "scenario of a well-behaved host ended with %s" % " ".join(fin)
    handed = 0
    for a in acts:
        h = a.split("=")[0]
        if h.startswith("wa"):
            handed += int(h[2:])
        elif h == "wo":
            handed += 1
        elif h[0] == "w" and h[1:].isdigit():
            handed += int(h[1:])
    sent, taken, lifted_r, visible, shown, returned, dropped = [], [], [], [], [], [], []
    lo, de, li = {}, {}, {}
    areas = 0
    last = {"w": None, "r": None}      # resolving code of the operation in flight
    moved = {"w": 0, "r": 0}
    pend = {"w": 0, "r": 0}
    done = {"w": False, "r": False}    # a DROPPED(k>0) code was issued to this end

    def issued(e, code):
        c, k = decode(code)
        if c == "D" and k > 0:
            done[e] = True
    rvec = []                          # last known contents of the reader's vector (R: tokens)
    rfk = None                         # kind of the reader-side future in flight
    optaken = []                       # items the host stored for the reader-side future in flight
    for gi, g in enumerate(groups):
        act = acts[gi] if gi < len(acts) else "(wrapup)"
        h = act.split("=")[0]
        if h[0] == "r" and h[1:].isdigit():
            rfk = "op"; optaken = []
        elif h in ("nx", "col", "ad"):
            rfk = h; optaken = []
        if any(t.startswith(("R:", "nx:", "col:")) for t in g):
            rfk = None
        if h in ("ew", "er"):
            last[h[1]] = code_of(act.split("=")[1]); issued(h[1], last[h[1]])
        for t in g:
            if "!" in t or t.startswith("TRAP"):
                return "bad token %s (double release / corrupt value / host trap) in action %d (%s)" % (t, gi, act)
            key, _, val = t.partition(":")
            if key == "tw":
                ids = _ids(val); sent += ids; pend["w"] += len(ids)
            elif key == "tr":
                ids = _ids(val); taken += ids; pend["r"] += len(ids); optaken += ids
            elif key in ("sw", "sr"):
                ln, code = val.split("="); code = int(code); e = key[1]
                moved[e] = pend[e]; pend[e] = 0
                if code != BLOCKED:
                    last[e] = code; issued(e, code)
                    if decode(code)[1] > int(ln):
                        return "host count exceeds length in %s" % t
                else:
                    last[e] = None
            elif t.startswith("cw=") or t.startswith("cr="):
                last[t[1]] = int(t[3:]); issued(t[1], last[t[1]])
                moved[t[1]] += pend[t[1]]; pend[t[1]] = 0
            elif key in ("W", "R"):
                e = key.lower()
                rs, rest = val.split(":", 1)
                if last[e] is None and h in ("cw", "cr"):
                    exp, k = "X", 0       # cancelled before it started
                elif last[e] is None:
                    exp, k = "D", 0       # started on an end whose `done` flag is set: no host call
                    if not done[e]:
                        return "operation resolved as Dropped without a host call although no DROPPED(k>0) was ever issued (action %d %s)" % (gi, act)
                else:
                    exp, k = res_of(last[e])
                if rs != exp:
                    return "operation reported %s but the host's code says %s (action %d %s)" % (rs, exp, gi, act)
                if k != moved[e]:
                    return "operation reported count %d, host moved %d items (action %d %s)" % (k, moved[e], gi, act)
                moved[e] = 0; last[e] = None
                if key == "R":
                    v = _ids(rest)
                    if v[:len(rvec)] != rvec:
                        return "reader vector lost its earlier contents: %s -> %s" % (rvec, v)
                    if len(v) - len(rvec) != k or v[len(rvec):] != optaken[-k or len(optaken):]:
                        return "read reported %d new items %s but its vector went %s -> %s (action %d %s)" % (k, optaken[-k or len(optaken):], rvec, v, gi, act)
                    shown += v[len(rvec):]
                    rvec = v; optaken = []
            elif key == "got":
                if _ids(val) != rvec:
                    return "vector handed to the caller %s differs from the last read result %s" % (val, rvec)
                visible += rvec; rvec = []
            elif key in ("nx", "sn", "one"):
                e = "w" if key == "one" else "r"
                if e == "r" and not (key == "sn" and not optaken and val == "-"):
                    exp = str(optaken[-1]) if optaken else "-"
                    if val != exp:
                        return "%s returned %s but the host stored %s for it (action %d %s)" % (key, val, optaken, gi, act)
                if e == "r":
                    optaken = []
                last[e] = None; moved[e] = 0
                if val != "-":
                    (returned if key == "one" else visible).append(int(val))
                    if key != "one":
                        shown.append(int(val))
            elif key == "col":
                if _ids(val) != optaken:
                    return "collect returned %s but the host stored %s for it" % (val, optaken)
                optaken = []
                visible += _ids(val); shown += _ids(val); last["r"] = None; moved["r"] = 0
            elif key in ("ret", "all"):
                returned += _ids(val)
                if key == "all":
                    last["w"] = None; moved["w"] = 0
            elif key == "lo":
                lo[int(val)] = lo.get(int(val), 0) + 1
            elif key == "de":
                de[int(val)] = de.get(int(val), 0) + 1
                if int(val) not in sent:
                    return "dealloc_lists of item %s that was not transferred" % val
            elif key == "li":
                li[int(val)] = li.get(int(val), 0) + 1
                if int(val) in sent:
                    return "item %s was transferred and also lifted back on the writer side" % val
            elif key == "lr":
                lifted_r.append(int(val))
            elif key == "dv":
                dropped.append(int(val))
            elif t == "a+":
                areas += 1
            elif t == "a-":
                areas -= 1
                if areas < 0:
                    return "Cleanup area released twice"
        if h in ("ew", "er"):
            moved[h[1]] += pend[h[1]]; pend[h[1]] = 0
        if h in ("xw", "xr") or gi >= len(acts):
            for e in ("w", "r"):
                if h == "x" + e or gi >= len(acts):
                    last[e] = None; moved[e] = 0; pend[e] = 0
            if h == "xr" and rfk == "op":
                rvec = []          # the vector was inside the dropped read
            if h == "xr":
                rfk = None; optaken = []
    # (1) exactly once, in order, on the wire
    if len(set(sent)) != len(sent) or any(x >= handed for x in sent):
        return "host saw an item twice / an item never handed over: sent=%s" % sent
    if sorted(sent) != sent:
        return "items left the writer out of order: %s" % sent
    if taken != sent[:len(taken)]:
        return "reader side is not a prefix of what the writer sent: sent=%s taken=%s" % (sent, taken)
    # (2) what the reader's API shows
    it = iter(taken)
    if not all(any(x == y for y in it) for x in shown):
        return "reader API shows %s which is not an in-order selection of the stored items %s" % (shown, taken)
    if kind != "c":
        if lifted_r != taken:
            return "items lifted on the reader side %s differ from the items the host stored %s" % (lifted_r, taken)
        rd = [x for x in dropped if x in set(taken)]
        if sorted(visible + rd) != sorted(taken):
            return "reader side: stored %s but shown %s + dropped %s" % (taken, visible, rd)
    # (3) every handed value is transferred, returned or dropped — exactly once
    wd = [x for x in dropped if x not in set(taken)]
    acc = sent + returned + (wd if kind != "c" else [])
    if len(set(acc)) != len(acc):
        return "a value is accounted twice: sent=%s returned=%s dropped=%s" % (sent, returned, wd)
    if kind != "c" and sorted(acc) != list(range(handed)):
        return "values lost: handed 0..%d, sent=%s returned=%s dropped=%s" % (handed - 1, sent, returned, wd)
    if any(x >= handed for x in acc):
        return "unknown value in %s" % acc
    # (4) ledger of lowered buffers
    if kind != "c":
        for i in range(handed):
            nlo = lo.get(i, 0); rel = (de.get(i, 0) if kind == "h" else 0) + li.get(i, 0)
            if kind == "h" and nlo != rel:
                return "item %d: lowered %d times, released %d times (dealloc %d, lift %d)" % (i, nlo, rel, de.get(i, 0), li.get(i, 0))
            if nlo > 1:
                return "item %d lowered twice" % i
            if kind == "h" and i in sent and nlo and de.get(i, 0) != 1:
                return "item %d transferred but dealloc_lists ran %d times" % (i, de.get(i, 0))
    if areas != 0:
        return "%d Cleanup area(s) never released" % areas
    if " ".join(fin) != "END lw= lr= areas=0 err=false":
        return "ledger not empty at quiescence: %s" % " ".join(fin)
    return None
