"""C32 helpers: seeded generator of crate layouts x generate! invocation forms, materialisation on disk,
one probe compilation (rustc called directly with CARGO_MANIFEST_DIR = the case directory, under strace),
parsing of rustc's dep-info and of the strace log, and the encoding of a case for the extracted Coq model
(ocaml/macrofiles_driver.ml)."""
import os, re, shutil, subprocess, json, hashlib

# ------------------------------------------------------------------------------------------ WIT text
def iface_text(name, nfuncs, rng):
    tys = ["u8", "u32", "s64", "string", "bool", "list<u8>", "option<u32>"]
    fs = " ".join("f%d: func(x: %s) -> %s;" % (i, rng.choice(tys), rng.choice(tys)) for i in range(nfuncs))
    return "interface %s { %s }\n" % (name, fs)


class Layout:
    """files: rel path -> ('w'|'p'|'o', text or None, wasm-source dict or None); dirs: set of rel paths;
    links: rel path -> target (relative to the link's directory).  invocation: dict (see gen_case)."""

    def __init__(self):
        self.files = {}
        self.dirs = set()
        self.links = {}
        self.inv = {}
        self.notes = []

    def add_file(self, rel, kind, text=None, wasm_src=None):
        self.files[rel] = (kind, text, wasm_src)
        d = os.path.dirname(rel)
        while d:
            self.dirs.add(d)
            d = os.path.dirname(d)

    def to_json(self):
        return {"files": {k: list(v) for k, v in self.files.items()}, "dirs": sorted(self.dirs),
                "links": self.links, "inv": self.inv, "notes": self.notes}

    @staticmethod
    def from_json(o):
        l = Layout()
        l.files = {k: tuple(v) for k, v in o["files"].items()}
        l.dirs = set(o["dirs"])
        l.links = dict(o["links"])
        l.inv = o["inv"]
        l.notes = o.get("notes", [])
        return l


GARBAGE = "this is } not { WIT at all \x01\n"


def add_noise(l, rng, d, in_deps):
    """files and directories the walk must NOT read; their content is not WIT, so reading them as WIT would
    make the macro fail, and opening them at all shows up in strace."""
    for _ in range(rng.range(0, 3)):
        n = rng.choice(["notes.txt", "README.md", ".DS_Store", "x.wit.bak", "Y.WIT", "wit", "main.wit~", "a.witx"])
        l.add_file(os.path.join(d, n), "o", GARBAGE)
    if in_deps and rng.chance(1, 4):
        l.add_file(os.path.join(d, ".wit"), "o", GARBAGE)        # hidden file without extension: ignored in deps/
    if not in_deps and rng.chance(1, 3):
        sub = os.path.join(d, rng.choice(["sub", "nested", "old.wit"]))   # a DIRECTORY, even if called old.wit
        l.add_file(os.path.join(sub, "ignored.wit"), "o", GARBAGE)


def gen_dep(l, rng, depsdir, name, allow_wasm=True):
    """one dependency package dep:<name> with interface `api` below depsdir; returns its form"""
    form = rng.weighted([("dir", 5), ("file", 4), ("wat-text", 1), ("wasm", 3 if allow_wasm else 0), ("linkdir", 1)])
    body = "package dep:%s;\n%s" % (name, iface_text("api", rng.range(1, 3), rng))
    if form == "dir":
        d = os.path.join(depsdir, name)
        if rng.chance(1, 2):
            l.add_file(os.path.join(d, "pkg.wit"), "w", "package dep:%s;\n" % name)
            l.add_file(os.path.join(d, "api.wit"), "w", iface_text("api", rng.range(1, 3), rng))
        else:
            l.add_file(os.path.join(d, "%s.wit" % name), "w", body)
        if rng.chance(1, 3):   # deps of deps are not supported: never read
            l.add_file(os.path.join(d, "deps", "inner.wit"), "o", GARBAGE)
        add_noise(l, rng, d, False)
    elif form == "file":
        l.add_file(os.path.join(depsdir, "%s.wit" % name), "w", body)
    elif form == "wat-text":
        # without wit-parser's `wat` feature a .wat entry of deps/ is read as WIT text
        l.add_file(os.path.join(depsdir, "%s.wat" % name), "w", body)
    elif form == "wasm":
        l.add_file(os.path.join(depsdir, "%s.wasm" % name), "p", None, {"p.wit": body})
    else:
        real = os.path.join("vendor", name)
        l.add_file(os.path.join(real, "%s.wit" % name), "w", body)
        l.dirs.add(depsdir)
        l.links[os.path.join(depsdir, name)] = os.path.relpath(real, depsdir)
    return form


def gen_pkg_dir(l, rng, d, pkg, world, ndeps, prefix, allow_wasm=True, extra_imports=()):
    """package <pkg> in directory d: world file, 0..2 more interface files, deps/, noise."""
    locals_ = []
    for i in range(rng.range(0, 2)):
        n = "%sloc%d" % (prefix, i)
        fname = rng.choice(["%s.wit" % n, "types-%d.wit" % i, ".wit" if i == 0 and rng.chance(1, 8) else "%s.wit" % n])
        if os.path.join(d, fname) in l.files:
            fname = "%s.wit" % n
        if rng.chance(1, 5):   # a *.wit entry that is a symbolic link to a file elsewhere: read through the link
            real = os.path.join("shared", "%s-%s.wit" % (prefix, n))
            l.add_file(real, "w", iface_text(n, rng.range(1, 3), rng))
            l.dirs.add(d)
            l.links[os.path.join(d, fname)] = os.path.relpath(real, d)
        else:
            l.add_file(os.path.join(d, fname), "w", iface_text(n, rng.range(1, 3), rng))
        locals_.append(n)
    deps = []
    forms = []
    for i in range(ndeps):
        n = "%sdep%d" % (prefix, i)
        forms.append(gen_dep(l, rng, os.path.join(d, "deps"), n, allow_wasm))
        deps.append(n)
    if ndeps and rng.chance(1, 2):
        add_noise(l, rng, os.path.join(d, "deps"), True)
    imports = ["import %s;" % n for n in locals_] + ["import dep:%s/api;" % n for n in deps if rng.chance(3, 4)]
    imports += list(extra_imports)
    imports.append("import ownfn: func(a: u32) -> u32;")
    l.add_file(os.path.join(d, rng.choice(["world.wit", "main.wit", "%s.wit" % world])),
               "w", "package %s;\nworld %s { %s }\n" % (pkg, world, " ".join(imports)))
    add_noise(l, rng, d, False)
    return forms


def gen_case(rng):
    """-> Layout with .inv = {'form', 'macro' (the text inside generate!(...)), 'fields' (model fields)}"""
    l = Layout()
    form = rng.weighted([("path", 5), ("paths", 4), ("file", 2), ("inline", 2), ("inline-default", 2),
                         ("inline+path", 3), ("path+inline", 2), ("default", 4), ("default-bare", 1), ("in", 2),
                         ("symlinked-root", 2)])
    forms = []
    if form in ("path", "in", "symlinked-root"):
        d = rng.choice(["api", "wit", "a/b/wit", "my wit", "x.wit"])
        real = d
        if form == "symlinked-root":
            real = "store/pkg"
        forms = gen_pkg_dir(l, rng, real, "test:main", "w", rng.range(0, 3), "m")
        if form == "symlinked-root":
            link = rng.choice(["api", "wit-link"])
            l.links[link] = real
            d = link
        given = rng.choice([d, "./" + d, d + "/", "src/../" + d]) if form != "in" else d
        if "src/../" in given:
            l.dirs.add("src")
        if form == "in":
            macro = '"w" in "%s"' % given
            # the shorthand form has no generate_all: keep the world free of foreign packages
        else:
            macro = '{ path: "%s", world: "w", generate_all }' % given
        fields = [("P", [d]), ("O",)]
        if form == "in":
            # imports of dep packages need generate_all/with; regenerate the world without them
            for k, (kind, text, ws) in list(l.files.items()):
                if text and text.startswith("package test:main;"):
                    l.files[k] = (kind, re.sub(r"import dep:[a-z0-9]+/api; ?", "", text), ws)
    elif form == "paths":
        forms = gen_pkg_dir(l, rng, "first", "test:first", "w1", rng.range(0, 2), "a")
        l.add_file("first/shared-iface.wit", "w", iface_text("shared", 2, rng))
        forms += gen_pkg_dir(l, rng, "second/wit", "test:second", "w2", rng.range(0, 2), "b",
                             extra_imports=["import test:first/shared;"])
        macro = '{ path: ["first", "second/wit"], world: "test:second/w2", generate_all }'
        fields = [("P", ["first", "second/wit"]), ("O",)]
    elif form == "file":
        l.add_file("single.wit", "w", "package test:single;\n%sworld w { import one; }\n" % iface_text("one", 2, rng))
        l.add_file("single.wit.bak", "o", GARBAGE)
        macro = '{ path: "single.wit", world: "w", generate_all }'
        fields = [("P", ["single.wit"]), ("O",)]
    elif form == "inline":
        # no `wit` directory: nothing is read at all
        l.add_file("other/unrelated.wit", "o", GARBAGE)
        macro = '{ inline: "package test:inl; world w { import f: func(x: u32) -> string; }", generate_all }'
        fields = [("I",), ("O",)]
    elif form == "inline-default":
        # inline without path: the default `wit` directory is parsed when it exists
        forms = gen_pkg_dir(l, rng, "wit", "test:lib", "unused", rng.range(0, 2), "d")
        l.add_file("wit/exported-iface.wit", "w", iface_text("things", 2, rng))
        macro = '{ inline: "package test:inl; world w { import test:lib/things; }", generate_all }'
        fields = [("I",), ("O",)]
    elif form in ("inline+path", "path+inline"):
        d = rng.choice(["deps-src", "wit", "vendor/x"])
        forms = gen_pkg_dir(l, rng, d, "test:lib", "unused", rng.range(0, 2), "d")
        l.add_file(d + "/exported-iface.wit", "w", iface_text("things", 2, rng))
        if d != "wit" and rng.chance(1, 2):
            # a default `wit` directory that must NOT be consulted when a path is given
            l.add_file("wit/trap.wit", "o", GARBAGE)
        inl = 'inline: "package test:inl; world w { import test:lib/things; }"'
        pth = 'path: "%s"' % d
        macro = "{ %s, generate_all }" % (", ".join([inl, pth] if form == "inline+path" else [pth, inl]))
        fields = ([("I",), ("P", [d])] if form == "inline+path" else [("P", [d]), ("I",)]) + [("O",)]
    else:  # default / default-bare
        forms = gen_pkg_dir(l, rng, "wit", "test:main", "w", rng.range(0, 3) if form == "default" else 0, "m")
        if form == "default":
            macro = '{ world: "w", generate_all }'
        else:
            macro = rng.choice(['', '"w"'])
        fields = [("O",)]
    l.inv = {"form": form, "macro": macro, "fields": [list(f) for f in fields], "dep_forms": forms}
    return l


# ------------------------------------------------------------------------------------------ on disk
def materialise(l, root, encoder):
    """Writes the layout below `root` (fresh directory).  Binary packages are produced with the encoder."""
    if os.path.exists(root):
        shutil.rmtree(root)
    os.makedirs(os.path.join(root, "src"))
    os.makedirs(os.path.join(root, "out"))
    for d in sorted(l.dirs):
        os.makedirs(os.path.join(root, d), exist_ok=True)
    for rel, (kind, text, wasm_src) in sorted(l.files.items()):
        p = os.path.join(root, rel)
        os.makedirs(os.path.dirname(p), exist_ok=True)
        if kind == "p":
            tmp = os.path.join(root, "out", "enc-" + hashlib.sha1(rel.encode()).hexdigest()[:8])
            os.makedirs(tmp)
            for n, t in wasm_src.items():
                open(os.path.join(tmp, n), "w").write(t)
            r = subprocess.run([encoder, tmp, p], capture_output=True, text=True)
            if r.returncode != 0:
                raise RuntimeError("encoder failed: " + r.stderr[-500:])
            shutil.rmtree(tmp)
        else:
            open(p, "w").write(text)
    for rel, target in sorted(l.links.items()):
        p = os.path.join(root, rel)
        os.makedirs(os.path.dirname(p), exist_ok=True)
        if not os.path.lexists(p):
            os.symlink(target, p)
    open(os.path.join(root, "src", "lib.rs"), "w").write("wit_bindgen::generate!(%s);\n" % l.inv["macro"])


def parse_depinfo(path, root):
    """rustc dep-info -> set of absolute paths (first rule's prerequisites)"""
    txt = open(path).read()
    first = txt.split("\n\n")[0].replace("\\\n", " ")
    rhs = first.split(":", 1)[1]
    toks = re.findall(r"(?:\\ |[^\s])+", rhs)
    out = set()
    for t in toks:
        t = t.replace("\\ ", " ")
        out.add(os.path.normpath(t if os.path.isabs(t) else os.path.join(root, t)))
    return out


def parse_strace(path, root):
    """successful non-directory opens -> set of absolute paths"""
    out = set()
    for line in open(path, errors="replace"):
        m = re.search(r'open(?:at)?\((?:AT_FDCWD, )?"((?:[^"\\]|\\.)*)", ([A-Z_|0-9]+)(?:, \d+)?\)\s+= (-?\d+)', line)
        if not m or int(m.group(3)) < 0 or "O_DIRECTORY" in m.group(2):
            continue
        p = m.group(1).encode().decode("unicode_escape")
        out.add(os.path.normpath(p if os.path.isabs(p) else os.path.join(root, p)))
    return out


def run_probe(root, rustc_args, timeout=300):
    """Compiles <root>/src/lib.rs with CARGO_MANIFEST_DIR=<root> under strace.
    -> dict(ok, tracked (abs paths), opened (abs paths), stderr)"""
    env = dict(os.environ)
    env["CARGO_MANIFEST_DIR"] = root
    env.pop("WIT_BINDGEN_DEBUG", None)
    st = os.path.join(root, "out", "strace.txt")
    cmd = ["strace", "-f", "-qq", "-e", "trace=open,openat", "-o", st, "rustc", "--crate-name", "c32probe", "--edition=2021",
           "src/lib.rs", "--crate-type", "lib", "--emit=dep-info,metadata", "--out-dir", "out", "--cap-lints", "allow"] + rustc_args
    try:
        r = subprocess.run(cmd, cwd=root, env=env, capture_output=True, text=True, timeout=timeout)
    except subprocess.TimeoutExpired:
        return {"ok": False, "tracked": set(), "opened": set(), "stderr": "timeout"}
    dep = os.path.join(root, "out", "c32probe.d")
    ok = r.returncode == 0 and os.path.exists(dep)
    return {"ok": ok, "tracked": parse_depinfo(dep, root) if ok else set(),
            "opened": parse_strace(st, root) if os.path.exists(st) else set(), "stderr": r.stderr[-1500:]}


def layout_files_on_disk(root):
    """every regular file of the layout as the macro can reach it: absolute logical path -> realpath
    (symbolic links to directories are followed, cycles are not generated)"""
    out = {}
    for d, dirs, files in os.walk(root, followlinks=True):
        rel = os.path.relpath(d, root)
        if rel.split(os.sep)[0] in ("src", "out"):
            continue
        for f in files:
            p = os.path.join(d, f)
            out[os.path.normpath(p)] = os.path.realpath(p)
    return out


# ------------------------------------------------------------------------------------------ model side
def model_line(l, root):
    """Encodes the case for ocaml/macrofiles_driver.ml: fields | entries.  The tree is the directory as seen
    through symbolic links; paths in fields are normalised and resolved (realpath) relative to the root."""
    rroot = os.path.realpath(root)

    def canon_rel(p):
        ap = os.path.realpath(os.path.join(root, p))
        return os.path.relpath(ap, rroot).replace(os.sep, "/") if ap != rroot else ""
    fields = []
    for f in l.inv["fields"]:
        if f[0] == "P":
            fields.append("P:" + ",".join(canon_rel(p) for p in f[1]))
        else:
            fields.append(f[0])
    kinds = {}
    for rel, (kind, _, _) in l.files.items():
        kinds[os.path.realpath(os.path.join(root, rel))] = kind
    entries = []
    for d, dirs, files in os.walk(rroot, followlinks=True):
        rel = os.path.relpath(d, rroot)
        if rel.split(os.sep)[0] in ("src", "out"):
            continue
        if rel != ".":
            entries.append("D:" + rel.replace(os.sep, "/"))
        for f in sorted(files):
            p = os.path.join(d, f)
            k = kinds.get(os.path.realpath(p), "o")
            entries.append("F:%s:%s" % (os.path.relpath(p, rroot).replace(os.sep, "/"), {"w": "w", "p": "p"}.get(k, "o")))
    return " ".join(f.replace(" ", "\x1f") for f in fields) + " | " + " ".join(e.replace(" ", "\x1f") for e in entries)


def parse_model(out, root):
    """model output -> None | (tracked set, read set, clean) as sets of realpaths"""
    if out.strip() == "none":
        return None
    m = re.match(r"T:(.*) R:(.*) C:([01])$", out.strip())
    rroot = os.path.realpath(root)

    def S(s):
        return {os.path.realpath(os.path.join(rroot, p.replace("\x1f", " "))) for p in s.split(";") if p}
    return S(m.group(1)), S(m.group(2)), m.group(3) == "1"
