"""C13 scraper for the C++ backend:
   extern "C" __attribute__((import_module("m")))  __attribute__((import_name("n")))  <prototype>;
   extern "C" __attribute__((__export_name__("n")))  <definition>   (also __attribute__((__weak__, __export_name__(..))))"""
import re
from c13_common import mk, line_of, word_counts, text_files, mark_referenced
from c13_c import parse_proto, TYPEDEF, TYPEDEF_PTR

GROUP = re.compile(r'^(?P<attrs>(?:[ \t]*(?:extern\s+"C"\s+)?__attribute__\(\([^\n]*\)\)[ \t]*\n)+)\s*(?P<decl>[^;{]*?)\s*(?P<end>[;{])', re.M)


def scrape(files):
    srcs = text_files(files, [".cpp", ".h", ".hpp"])
    typedefs = {}
    for t in srcs.values():
        for m in TYPEDEF.finditer(t):
            typedefs[m.group(2)] = m.group(1)
        for m in TYPEDEF_PTR.finditer(t):
            typedefs[m.group(1)] = "*"
    wc = word_counts(srcs.values())
    out = []
    for fn, t in srcs.items():
        n_attr = len(re.findall(r'(?:import_name|export_name__)\("', t))
        got = 0
        for m in GROUP.finditer(t):
            attrs = m.group("attrs")
            mi = re.search(r'import_module_*\("([^"]*)"\)', attrs)
            ni = re.search(r'import_name_*\("([^"]*)"\)', attrs)
            ne = re.search(r'export_name_*\("([^"]*)"\)', attrs)
            if not (mi or ni or ne):
                continue
            got += 1
            decl = re.sub(r'^extern\s+"C"\s+', "", m.group("decl").strip())
            name, sig = parse_proto(decl, typedefs)
            ln = line_of(t, m.start())
            if ne:
                out.append(mk("E", "", ne.group(1), sig, name or "?", fn, ln))
            elif mi and ni:
                out.append(mk("I", mi.group(1), ni.group(1), sig, name or "?", fn, ln))
                out[-1]["_scope"] = 0
            else:
                out.append(mk("I", mi.group(1) if mi else "?", ni.group(1) if ni else "?", "?", name or "?", fn, ln))
        if got != n_attr:
            out.append(mk("I", "?", "<%d import/export attributes not parsed in %s>" % (n_attr - got, fn), "?", "?", fn, 0))
    return mark_referenced(out, {0: wc})
