"""C13 scraper for the cpp backend (placeholder, filled in below)."""
def scrape(files):
    return []
