"""C13 scraper for the C backend: __attribute__((__import_module__("m"), __import_name__("n"))) /
__attribute__((__export_name__("n"))) followed by a prototype or definition."""
import re
from c13_common import mk, line_of, word_counts, text_files, split_params, mark_referenced

I32 = {"int32_t", "uint32_t", "size_t", "bool", "int8_t", "uint8_t", "int16_t", "uint16_t", "char", "int", "unsigned",
       "uintptr_t", "intptr_t"}
I64 = {"int64_t", "uint64_t"}

ATTR = re.compile(r"^[ \t]*__attribute__\(\((?P<attr>[^\n]*)\)\)[ \t]*\n\s*(?P<decl>[^;{]*?)\s*(?P<end>[;{])", re.S | re.M)
TYPEDEF = re.compile(r"^typedef\s+([A-Za-z_][A-Za-z0-9_]*)\s+([A-Za-z_][A-Za-z0-9_]*)\s*;", re.M)
TYPEDEF_PTR = re.compile(r"^typedef\s+[A-Za-z_][A-Za-z0-9_ ]*\*\s*([A-Za-z_][A-Za-z0-9_]*)\s*;", re.M)
TYPEDEF_ENUM = re.compile(r"^typedef\s+enum\b[^;{]*\{[^}]*\}\s*([A-Za-z_][A-Za-z0-9_]*)\s*;", re.M | re.S)


def core_ty(t, typedefs):
    t = t.strip()
    t = re.sub(r"\bconst\b", "", t).strip()
    if "*" in t:
        return "i"
    t = t.split()[0] if t.split() else t
    seen = 0
    while t in typedefs and seen < 10:
        t = typedefs[t]
        seen += 1
    if t == "*":
        return "i"
    if t in I32:
        return "i"
    if t in I64:
        return "I"
    if t == "float":
        return "f"
    if t == "double":
        return "F"
    return "?"


def parse_proto(decl, typedefs):
    """`[extern] ret name(params)` -> (name, sig)"""
    m = re.match(r"(?:extern\s+)?(?P<ret>.*?)(?P<name>[A-Za-z_][A-Za-z0-9_]*)\s*\((?P<params>.*)\)\s*$", decl.strip(), re.S)
    if not m:
        return None, "?"
    ret = m.group("ret").strip()
    params = m.group("params").strip()
    ps = ""
    if params not in ("", "void"):
        for p in split_params(params):
            if "*" in p:
                ps += "i"
                continue
            toks = re.sub(r"\bconst\b", "", p).split()
            ps += core_ty(toks[0] if toks else "", typedefs)
    rs = "" if ret == "void" else core_ty(ret, typedefs)
    sig = ps + ">" + rs
    return m.group("name"), ("?" if "?" in sig else sig)


def scrape(files):
    srcs = text_files(files, [".c", ".h"])
    typedefs = {}
    for t in srcs.values():
        for m in TYPEDEF.finditer(t):
            typedefs[m.group(2)] = m.group(1)
        for m in TYPEDEF_PTR.finditer(t):
            typedefs[m.group(1)] = "*"
        for m in TYPEDEF_ENUM.finditer(t):
            typedefs[m.group(1)] = "int32_t"
    out = []
    wc = word_counts(srcs.values())
    for fn, t in srcs.items():
        for m in ATTR.finditer(t):
            attr = m.group("attr")
            mi = re.search(r'__import_module__\("([^"]*)"\)', attr)
            ni = re.search(r'__import_name__\("([^"]*)"\)', attr)
            ne = re.search(r'__export_name__\("([^"]*)"\)', attr)
            if not (mi or ni or ne):
                continue
            name, sig = parse_proto(m.group("decl"), typedefs)
            ln = line_of(t, m.start())
            if ne:
                out.append(mk("E", "", ne.group(1), sig, name or "?", fn, ln))
            elif mi and ni:
                out.append(mk("I", mi.group(1), ni.group(1), sig, name or "?", fn, ln))
                out[-1]["_scope"] = 0
            else:
                out.append(mk("I", mi.group(1) if mi else "?", ni.group(1) if ni else "?", "?", name or "?", fn, ln))
    return mark_referenced(out, {0: wc})
