"""Token-for-token correspondence between the REAL shared ABI generator (harness/crates/absdump: a recording
Bindgen around wit_bindgen_core::abi's public entry points) and the extracted Coq model (ocaml/abi_driver)."""
import vf, abigen


def build():
    ok1, exe_r, log1 = vf.cargo_build("absdump")
    ok0, clog = vf.coq_make(["theories/Extract/ExAbi.vo"])
    ok2, exe_m, log2 = vf.ocaml_build("abi_driver", ["abi_model"], ["util.ml", "abi_driver.ml"]) if ok0 else (False, None, clog)
    return ok1, exe_r, log1, ok2, exe_m, log2


def dump_real(exe_r, texts):
    """-> per case: list of (func_name, sig_sexpr, [(label, dump)])  or ("parse-error", msg)"""
    outs = vf.run_filter([exe_r], [t.replace("\n", "\x1f") for t in texts])
    res = []
    for o in outs:
        funcs = []
        cur = None
        err = None
        for rec in o.split("\x1e"):
            if not rec:
                continue
            label, payload = rec.split("\x1d", 1)
            if label == "parse-error":
                err = payload
            elif label.startswith("func "):
                cur = (label[5:], payload, [])
                funcs.append(cur)
            else:
                cur[2].append((label, payload))
        res.append(("parse-error", err) if err is not None else funcs)
    return res


def run_model(exe_m, items):
    """items: list of (label, sig) -> list of model dumps"""
    return vf.run_filter([exe_m], ["%s\x1d%s" % (l, s) for l, s in items])


def compare(exe_r, exe_m, texts):
    """Returns dict with counts, mismatches [(text, func, sig, label, real, model)], per-label stats."""
    real = dump_real(exe_r, texts)
    items = []
    index = []
    parse_errors = []
    for ti, r in enumerate(real):
        if isinstance(r, tuple):
            parse_errors.append((texts[ti], r[1]))
            continue
        for (fname, sig, entries) in r:
            for (label, d) in entries:
                items.append((label, sig))
                index.append((ti, fname, sig, label, d))
    model = run_model(exe_m, items)
    mism = []
    stats = {}
    panics = {}
    for (ti, fname, sig, label, d), m in zip(index, model):
        kind = label.split(".")[0]
        st = stats.setdefault(kind, {"n": 0, "ok": 0, "panic": 0})
        st["n"] += 1
        rp = d.startswith("PANIC")
        mp = m.startswith("ERR")
        if rp or mp:
            if rp and mp:
                st["panic"] += 1
                key = (m[4:], d[6:60])
                panics[key] = panics.get(key, 0) + 1
                continue
            mism.append((texts[ti], fname, sig, label, d, m))
            continue
        if d == m:
            st["ok"] += 1
        else:
            mism.append((texts[ti], fname, sig, label, d, m))
    return {"n": len(index), "mismatches": mism, "stats": stats, "parse_errors": parse_errors, "panics": panics,
            "index": index}


def first_diff(a, b):
    ea, eb = a.split(" ; "), b.split(" ; ")
    for i, (x, y) in enumerate(zip(ea, eb)):
        if x != y:
            return "event %d: real=%r model=%r" % (i, x, y)
    return "length: real=%d model=%d events" % (len(ea), len(eb))


SEM_KINDS = ("lower_flat", "lower_to_memory", "lift_from_memory", "dealloc", "post_return", "call")
SEM_CALLS = ("call.GuestImport.LowerLift.0.", "call.GuestExport.LiftLower.0.", "call.GuestExport.LiftLower.1.",
             "call.GuestExportAsync.LiftLower.1.")


def sem_items(index, pws=(4, 8), nvals=6, seed=1):
    """index entries (ti, fname, sig, label, real_dump) -> SEM protocol lines for the statement checks"""
    lines, meta = [], []
    for (ti, fname, sig, label, d) in index:
        kind = label.split(".")[0]
        if kind not in SEM_KINDS or d.startswith("PANIC"):
            continue
        if kind == "post_return" and "(result _)" in sig:
            continue
        if kind == "call" and not label.startswith(SEM_CALLS):
            continue
        for pw in pws:
            lines.append("SEM\x1d%s\x1d%d\x1d%d\x1d%d\x1d%s\x1d%s" % (label, pw, nvals, (seed * 7919 + len(lines)) & 0x3fffffff, sig, d))
            meta.append((ti, fname, sig, label, pw, d))
    return lines, meta
